//! C16 — integrity reports flag every corruption and nothing else.
//!
//! Soundness: `account_integrity` / `file_integrity` on an untouched account
//! report no failure.  Completeness: one mutation at a time (a byte of the
//! encrypted content or stored checksum of a secret row, of an event record's
//! payload or stored commit hash, of an external blob; removal of a folder's
//! vault, log or blob) makes the report contain a failure for the affected
//! folder or file.
use crate::engine_acct::*;
use crate::framework::*;
use crate::ensure;
use crate::secrets::*;
use futures::StreamExt;
use proptest::prelude::*;
use serde::{Deserialize, Serialize};
use serde_json::Value;
use sos_account::Account;
use sos_backend::BackendTarget;
use sos_client_storage::AccessOptions;
use sos_core::{
    constants::{FOLDER_EVENT_LOG_IDENTITY, VAULT_IDENTITY},
    AccountId, ExternalFile, Paths, SecretId, VaultId,
};
use sos_filesystem::formats::{EventLogRecord, FileItem, FormatStream, FormatStreamIterator, VaultRecord};
use sos_integrity::{account_integrity, file_integrity, FileIntegrityEvent, FolderIntegrityEvent};
use sos_sync::StorageEventLogs;
use sos_vault::{
    secret::{Secret, SecretMeta},
    Header, Summary,
};
use std::ops::Range;
use std::path::{Path, PathBuf};
use std::time::Duration;

pub const META: PropertyMeta = PropertyMeta {
    id: "C16",
    level: "exploration",
    rule: "account built by a proptest-generated content history (1..12 account-level ops of the C01 set: all secret kinds, updates, moves, deletes, archive, folder create/rename/flags/description/delete) plus 2..4 appended creates, on a forced backend (fs / sqlite) x generated cipher x KDF. Sub-checks sound/<backend>: the drained account_integrity report (concurrency 1 or 4) has zero Failure events. Sub-checks sound-replay/<backend>: the same soundness oracle after histories of up to 16 ops that also contain folder-level create / update / delete with caller-chosen ids (fresh, still live, deleted), compaction, sign-out / re-open, followed by 0..2 rewrites (compact folder / account, folder / account password change, cipher change). Sub-check sync-sound (engine B): after every sync of generated multi-device merge cases (the C02/C20 `sync` generator: auto-merge, rewind + replay, force merge) the report of the syncing device has zero Failure events. Sub-checks <backend>/<kind>: 1..3 mutations of one kind, applied one at a time and reverted: fs = one byte (xor with a generated non-zero mask) inside the value region of a vault row / the stored row commit / an event record's payload / an event record's stored commit, located with the repo's FormatStream<VaultRecord|EventLogRecord> readers, or removal of a folder's .vault / .events file; sqlite = the same byte change in folder_secrets.meta / .secret / .commit_hash or folder_events.event / .commit_hash through the account's own client, or DELETE of the folder row / of the folder's event rows. Row, folder and byte positions are drawn from the case (monotone mapping of u16 fractions). Oracle: the report after the mutation contains a Failure event naming the affected folder that the report before the mutation did not contain. Sub-checks files/<backend>: a 1..4 KiB external file secret is added; file_integrity over canonical_files reports no failure, then a failure naming the file after one blob byte is changed and after the blob is removed. In half of the files/<backend> cases a second file is sized so that its stored (encrypted) blob is exactly a multiple of 4096 bytes - the buffer size of the chunked blob reader - and that blob is the one corrupted. Non-trivial = the account holds >= 3 secrets in >= 2 folders and (for row/record mutations) some mutation hits a row that is not the first of its folder, (for removals) the folder is not the first one. Distinct = distinct case.",
    assumptions: &[
        "the mutated regions are exactly those named by the property: row value (encoded meta||secret AEAD packs), row commit, event payload, event commit, blob bytes; length prefixes, ids, timestamps and last_commit fields are never touched",
        "on sqlite 'removing a folder's vault' is deleting its folders row (what the repo's own test does) and 'removing its log' is deleting its folder_events rows",
        "a report that does not end within 30 s of silence is reported as never completing",
    ],
};

pub fn def() -> PropertyDef {
    PropertyDef {
        meta: META,
        shards: |_| 16,
        run,
        replay,
        timeout_s: |t| t.pick(1500, 5 * 3600),
    }
}

// ---------------------------------------------------------------------------
// Case data
// ---------------------------------------------------------------------------

#[derive(Clone, Copy, Debug, Serialize, Deserialize, PartialEq, Eq, Hash)]
pub enum Kind {
    Sound,
    /// fs: a byte of the value region of a vault row
    RowContent,
    /// sqlite: a byte of folder_secrets.meta
    RowMeta,
    /// sqlite: a byte of folder_secrets.secret
    RowSecret,
    RowCommit,
    EventPayload,
    EventCommit,
    RemoveVault,
    RemoveLog,
}

impl Kind {
    pub fn name(&self) -> &'static str {
        match self {
            Kind::Sound => "sound",
            Kind::RowContent => "row-content",
            Kind::RowMeta => "row-meta",
            Kind::RowSecret => "row-secret",
            Kind::RowCommit => "row-commit",
            Kind::EventPayload => "event-payload",
            Kind::EventCommit => "event-commit",
            Kind::RemoveVault => "remove-vault",
            Kind::RemoveLog => "remove-log",
        }
    }
    fn missed(&self) -> &'static str {
        match self {
            Kind::Sound => "sound",
            Kind::RowContent => "row-content-corruption-missed",
            Kind::RowMeta => "meta-corruption-missed",
            Kind::RowSecret => "secret-corruption-missed",
            Kind::RowCommit => "row-commit-corruption-missed",
            Kind::EventPayload => "event-payload-corruption-missed",
            Kind::EventCommit => "event-commit-corruption-missed",
            Kind::RemoveVault => "removed-vault-missed",
            Kind::RemoveLog => "removed-log-missed",
        }
    }
    fn is_removal(&self) -> bool {
        matches!(self, Kind::RemoveVault | Kind::RemoveLog)
    }
}

pub const FS_KINDS: [Kind; 6] = [Kind::RowContent, Kind::RowCommit, Kind::EventPayload, Kind::EventCommit, Kind::RemoveVault, Kind::RemoveLog];
pub const DB_KINDS: [Kind; 7] = [Kind::RowMeta, Kind::RowSecret, Kind::RowCommit, Kind::EventPayload, Kind::EventCommit, Kind::RemoveVault, Kind::RemoveLog];

#[derive(Clone, Debug, Serialize, Deserialize, PartialEq, Eq, Hash)]
pub struct Mutn {
    /// which row / record / folder (fraction of the flat list)
    pub sel: u16,
    /// which byte of the region (fraction)
    pub byte: u16,
    /// xor mask, non-zero
    pub mask: u8,
}

#[derive(Clone, Debug, Serialize, Deserialize, PartialEq, Eq, Hash)]
pub struct Case {
    pub kind: Kind,
    pub history: History,
    pub extra: Vec<(u16, SecretSpec)>,
    /// report concurrency 4 instead of 1
    pub wide: bool,
    pub muts: Vec<Mutn>,
}

#[derive(Clone, Debug, Serialize, Deserialize, PartialEq, Eq, Hash)]
pub struct FileSpec {
    pub folder: u16,
    pub len: u16,
    pub seed: u8,
    /// 0 = as generated; k > 0 = a second file is sized so that its STORED (encrypted) blob is
    /// exactly a multiple of 4096 bytes (k-th next multiple): buffer-boundary lengths of the
    /// chunked blob reader
    #[serde(default)]
    pub boundary: u8,
}

#[derive(Clone, Debug, Serialize, Deserialize, PartialEq, Eq, Hash)]
pub struct FileCase {
    pub history: History,
    pub file: FileSpec,
    pub flip: Mutn,
    pub wide: bool,
}

// ---------------------------------------------------------------------------
// Draining the report streams
// ---------------------------------------------------------------------------

#[derive(Debug, Default, Clone)]
pub struct FolderReport {
    /// (folder named by the failure event, debug text of the reason), sorted
    pub failures: Vec<(VaultId, String)>,
    pub complete: bool,
    pub timed_out: bool,
}

const SILENCE: Duration = Duration::from_secs(30);

pub async fn drain_account(target: &BackendTarget, account_id: &AccountId, folders: Vec<Summary>, concurrency: usize) -> Result<FolderReport, Failure> {
    let be = be_of(target);
    let (mut rx, _cancel) = account_integrity(target, account_id, folders, concurrency)
        .await
        .map_err(hf(&format!("c16/{be}/report-error"), "account_integrity returned an error"))?;
    let mut rep = FolderReport::default();
    loop {
        match tokio::time::timeout(SILENCE, rx.recv()).await {
            Ok(Some(ev)) => match ev {
                FolderIntegrityEvent::Failure(id, reason) => rep.failures.push((id, format!("{:?}", reason))),
                FolderIntegrityEvent::Complete => rep.complete = true,
                _ => {}
            },
            Ok(None) => break,
            Err(_) => {
                rep.timed_out = true;
                break;
            }
        }
    }
    rep.failures.sort();
    Ok(rep)
}

#[derive(Debug, Default, Clone)]
pub struct FileReport {
    pub failures: Vec<(ExternalFile, String)>,
    pub complete: bool,
    pub timed_out: bool,
}

pub async fn drain_files(target: &BackendTarget, files: indexmap::IndexSet<ExternalFile>, concurrency: usize) -> Result<FileReport, Failure> {
    let be = be_of(target);
    let (mut rx, _cancel) = file_integrity(target, files, concurrency)
        .await
        .map_err(hf(&format!("c16/{be}/file-report-error"), "file_integrity returned an error"))?;
    let mut rep = FileReport::default();
    loop {
        match tokio::time::timeout(SILENCE, rx.recv()).await {
            Ok(Some(ev)) => match ev {
                FileIntegrityEvent::Failure(file, reason) => rep.failures.push((file, format!("{:?}", reason))),
                FileIntegrityEvent::Complete => rep.complete = true,
                _ => {}
            },
            Ok(None) => break,
            Err(_) => {
                rep.timed_out = true;
                break;
            }
        }
    }
    Ok(rep)
}

fn be_of(target: &BackendTarget) -> &'static str {
    match target {
        BackendTarget::FileSystem(_) => "fs",
        BackendTarget::Database(_, _) => "sqlite",
    }
}

/// Failures of `after` naming `folder` that `before` does not contain (multiset difference).
fn new_failures_for(before: &FolderReport, after: &FolderReport, folder: &VaultId) -> Vec<String> {
    let mut old: Vec<&(VaultId, String)> = before.failures.iter().filter(|(f, _)| f == folder).collect();
    let mut out = vec![];
    for item in after.failures.iter().filter(|(f, _)| f == folder) {
        if let Some(pos) = old.iter().position(|o| *o == item) {
            old.remove(pos);
        } else {
            out.push(item.1.clone());
        }
    }
    out
}

// ---------------------------------------------------------------------------
// Locating regions with the repo's own readers (file system)
// ---------------------------------------------------------------------------

#[derive(Debug, Clone)]
struct Region {
    folder: VaultId,
    /// index of the row / record inside its folder
    index: usize,
    /// fs: file and byte range
    path: PathBuf,
    range: Range<u64>,
    /// sqlite: primary key and column bytes
    rowid: i64,
    data: Vec<u8>,
}

async fn fs_vault_regions(paths: &Paths, folders: &[VaultId], commit: bool) -> Result<Vec<Region>, Failure> {
    let mut out = vec![];
    for fid in folders {
        let path = paths.vault_path(fid);
        let content_offset = Header::read_content_offset(&path).await.map_err(hf("harness/fs-vault-header", &format!("read_content_offset({})", path.display())))?;
        let stream = sos_vfs::File::open(&path).await.map_err(hf("harness/fs-vault-open", "open vault"))?;
        let mut it = FormatStream::<VaultRecord, sos_vfs::File>::new_file(stream, &VAULT_IDENTITY, true, Some(content_offset), false)
            .await
            .map_err(hf("harness/fs-vault-iter", "FormatStream::new_file"))?;
        let mut index = 0;
        while let Some(rec) = it.next().await.map_err(hf("harness/fs-vault-iter", &format!("iterate rows of {}", path.display())))? {
            let value = rec.value().clone();
            // row layout: u32 len | id 16 | commit 32 | u32 value len | value | u32 len
            let range = if commit { (value.start - 4 - 32)..(value.start - 4) } else { value };
            out.push(Region { folder: *fid, index, path: path.clone(), range, rowid: 0, data: vec![] });
            index += 1;
        }
    }
    Ok(out)
}

async fn fs_event_regions(paths: &Paths, folders: &[VaultId], commit: bool) -> Result<Vec<Region>, Failure> {
    let mut out = vec![];
    for fid in folders {
        let path = paths.event_log_path(fid);
        let stream = sos_vfs::File::open(&path).await.map_err(hf("harness/fs-events-open", "open event log"))?;
        let mut it = FormatStream::<EventLogRecord, sos_vfs::File>::new_file(stream, &FOLDER_EVENT_LOG_IDENTITY, true, None, false)
            .await
            .map_err(hf("harness/fs-events-iter", "FormatStream::new_file"))?;
        let mut index = 0;
        while let Some(rec) = it.next().await.map_err(hf("harness/fs-events-iter", &format!("iterate records of {}", path.display())))? {
            let value = rec.value().clone();
            // record layout: u32 len | time 12 | last_commit 32 | commit 32 | u32 value len | value | u32 len
            let range = if commit { (value.start - 4 - 32)..(value.start - 4) } else { value };
            if commit {
                // cross-check the computed position against the reader's own field
                let bytes = std::fs::read(&path).map_err(hf("harness/fs-events-read", "read log"))?;
                if bytes[range.start as usize..range.end as usize] != rec.commit() {
                    return Err(Failure::new("harness/fs-event-commit-offset", "computed commit offset does not hold the commit the reader decoded"));
                }
            }
            out.push(Region { folder: *fid, index, path: path.clone(), range, rowid: 0, data: vec![] });
            index += 1;
        }
    }
    Ok(out)
}

fn xor_file_byte(path: &Path, offset: u64, mask: u8) -> Result<(), Failure> {
    use std::io::{Read, Seek, SeekFrom, Write};
    let mut f = std::fs::OpenOptions::new().read(true).write(true).open(path).map_err(hf("harness/mutate-open", "open for mutation"))?;
    f.seek(SeekFrom::Start(offset)).map_err(hf("harness/mutate-seek", "seek"))?;
    let mut b = [0u8; 1];
    f.read_exact(&mut b).map_err(hf("harness/mutate-read", "read byte"))?;
    b[0] ^= mask;
    f.seek(SeekFrom::Start(offset)).map_err(hf("harness/mutate-seek", "seek"))?;
    f.write_all(&b).map_err(hf("harness/mutate-write", "write byte"))?;
    f.sync_all().ok();
    Ok(())
}

// ---------------------------------------------------------------------------
// Locating rows (sqlite)
// ---------------------------------------------------------------------------

async fn db_regions(client: &async_sqlite::Client, folders: &[VaultId], table: &'static str, idcol: &'static str, col: &'static str) -> Result<Vec<Region>, Failure> {
    let mut out = vec![];
    for fid in folders {
        let ident = fid.to_string();
        let rows: Vec<(i64, Vec<u8>)> = client
            .conn(move |conn| {
                let sql = format!("SELECT {idcol}, {col} FROM {table} WHERE folder_id = (SELECT folder_id FROM folders WHERE identifier = ?1) ORDER BY {idcol}");
                let mut stmt = conn.prepare(&sql)?;
                let rows = stmt.query_map([ident], |r| Ok((r.get::<_, i64>(0)?, r.get::<_, Vec<u8>>(1)?)))?;
                rows.collect::<Result<Vec<_>, _>>()
            })
            .await
            .map_err(hf("harness/db-select", &format!("select {col} of {table}")))?;
        for (index, (rowid, data)) in rows.into_iter().enumerate() {
            out.push(Region { folder: *fid, index, path: PathBuf::new(), range: 0..data.len() as u64, rowid, data });
        }
    }
    Ok(out)
}

async fn db_set(client: &async_sqlite::Client, table: &'static str, idcol: &'static str, col: &'static str, rowid: i64, data: Vec<u8>) -> Result<(), Failure> {
    let n = client
        .conn(move |conn| conn.execute(&format!("UPDATE {table} SET {col} = ?1 WHERE {idcol} = ?2"), (data, rowid)))
        .await
        .map_err(hf("harness/db-update", &format!("update {col} of {table}")))?;
    if n != 1 {
        return Err(Failure::new("harness/db-update", format!("UPDATE touched {n} rows")));
    }
    Ok(())
}

fn db_place(kind: Kind) -> (&'static str, &'static str, &'static str) {
    match kind {
        Kind::RowMeta => ("folder_secrets", "secret_id", "meta"),
        Kind::RowSecret => ("folder_secrets", "secret_id", "secret"),
        Kind::RowCommit => ("folder_secrets", "secret_id", "commit_hash"),
        Kind::EventPayload => ("folder_events", "event_id", "event"),
        _ => ("folder_events", "event_id", "commit_hash"),
    }
}

// ---------------------------------------------------------------------------
// The check
// ---------------------------------------------------------------------------

fn account_rule(w: &AcctWorld) -> bool {
    let total: usize = w.model.folders.iter().map(|f| f.secrets.len()).sum();
    let with = w.model.folders.iter().filter(|f| !f.secrets.is_empty()).count();
    total >= 3 && with >= 2
}

async fn summaries_in_model_order(w: &AcctWorld) -> Result<Vec<Summary>, Failure> {
    let listed = w.account.list_folders().await.map_err(hf("harness/list-folders", "list_folders"))?;
    let mut out = vec![];
    for f in &w.model.folders {
        match listed.iter().find(|s| s.id() == &f.id) {
            Some(s) => out.push(s.clone()),
            None => return Err(Failure::new("harness/folder-not-listed", format!("model folder {} is not listed by the account", f.name))),
        }
    }
    Ok(out)
}

async fn classify_unsound(target: &BackendTarget, account_id: &AccountId, folder: &VaultId) -> &'static str {
    let mut s = sos_integrity::vault_integrity(target, account_id, folder);
    while let Some(r) = s.next().await {
        if r.is_err() {
            return "intact-row-reported";
        }
    }
    let mut s = sos_integrity::event_integrity(target, account_id, folder);
    while let Some(r) = s.next().await {
        if r.is_err() {
            return "intact-event-reported";
        }
    }
    "intact-folder-reported"
}

pub fn check_case(c: &Case) -> (CaseInfo, CheckResult) {
    let mut info = CaseInfo::default();
    let r = block_on(async {
        sos_core::verif::set_clock(Some((1_700_000_000i128 * 1_000_000_000, 1_000_003)));
        let res = run_case(c, &mut info).await;
        sos_core::verif::set_clock(None);
        res
    });
    (info, r)
}

async fn build_world(history: &History, extra: &[(u16, SecretSpec)]) -> Result<AcctWorld, Failure> {
    let mut w = AcctWorld::new(&history.cfg).await?;
    // known C01/C02 finding (sqlite identifier unique table-wide): not this property's subject
    w.avoid.insert("sqlite-id-live-in-two-folders".into());
    for (i, op) in history.ops.iter().enumerate() {
        w.apply(op).await.map_err(|f| Failure::new(f.signature, format!("history op #{i} {}: {}", crate::prop_c01::op_label(op), f.message)))?;
    }
    for (folder, spec) in extra {
        let op = Op::CreateSecret { folder: *folder, spec: spec.clone() };
        w.apply(&op).await.map_err(|f| Failure::new(f.signature, format!("appended create: {}", f.message)))?;
    }
    Ok(w)
}

async fn run_case(c: &Case, info: &mut CaseInfo) -> CheckResult {
    let w = build_world(&c.history, &c.extra).await?;
    let be = if w.cfg.db { "sqlite" } else { "fs" };
    info.class(w.cfg.label());
    info.class(format!("{be}/{}", c.kind.name()));
    let rule = account_rule(&w);
    let target = w.target().await.with_account_id(&w.account_id);
    let folders = summaries_in_model_order(&w).await?;
    let folder_ids: Vec<VaultId> = folders.iter().map(|s| *s.id()).collect();
    let conc = if c.wide { 4 } else { 1 };
    let name_of = |id: &VaultId| w.model.folders.iter().find(|f| &f.id == id).map(|f| f.name.clone()).unwrap_or_default();

    let before = drain_account(&target, &w.account_id, folders.clone(), conc).await?;
    info.inner_evals += 1;
    ensure!(!before.timed_out, format!("c16/{be}/report-never-completes"), "[{be}] the report on the untouched account went silent for 30 s without ending");
    if c.kind == Kind::Sound {
        info.nontrivial = rule;
        if let Some((fid, reason)) = before.failures.first() {
            let class = classify_unsound(&target, &w.account_id, fid).await;
            return Err(Failure::new(
                format!("c16/{be}/{class}"),
                format!(
                    "[{be}] account_integrity on an untouched account reported {} failure(s); first: folder '{}' ({fid}) {}",
                    before.failures.len(),
                    name_of(fid),
                    reason.chars().take(300).collect::<String>()
                ),
            ));
        }
        ensure!(before.complete, format!("c16/{be}/report-without-complete"), "[{be}] the report stream of an untouched account ended without a Complete event");
        return Ok(());
    }
    if !before.failures.is_empty() {
        info.class("baseline-dirty");
    }

    let mut later_row = false;
    for (mi, m) in c.muts.iter().enumerate() {
        let mask = if m.mask == 0 { 1 } else { m.mask };
        // ---- locate + apply
        let (folder, what, undo): (VaultId, String, Option<(Region, u64)>);
        if c.kind.is_removal() {
            let ix = pick(m.sel, folder_ids.len());
            folder = folder_ids[ix];
            if ix > 0 {
                later_row = true;
            }
            match (&target, c.kind) {
                (BackendTarget::FileSystem(paths), Kind::RemoveVault) => {
                    std::fs::remove_file(paths.vault_path(&folder)).map_err(hf("harness/remove", "remove vault file"))?;
                    what = format!("removed the .vault file of folder #{ix} '{}'", name_of(&folder));
                }
                (BackendTarget::FileSystem(paths), _) => {
                    std::fs::remove_file(paths.event_log_path(&folder)).map_err(hf("harness/remove", "remove event log file"))?;
                    what = format!("removed the .events file of folder #{ix} '{}'", name_of(&folder));
                }
                (BackendTarget::Database(_, client), Kind::RemoveVault) => {
                    let ident = folder.to_string();
                    client.conn(move |conn| conn.execute("DELETE FROM folders WHERE identifier = ?1", [ident])).await.map_err(hf("harness/db-delete", "delete folder row"))?;
                    what = format!("deleted the folders row of folder #{ix} '{}'", name_of(&folder));
                }
                (BackendTarget::Database(_, client), _) => {
                    let ident = folder.to_string();
                    let n = client
                        .conn(move |conn| conn.execute("DELETE FROM folder_events WHERE folder_id = (SELECT folder_id FROM folders WHERE identifier = ?1)", [ident]))
                        .await
                        .map_err(hf("harness/db-delete", "delete folder events"))?;
                    what = format!("deleted all {n} folder_events rows of folder #{ix} '{}'", name_of(&folder));
                }
            }
            undo = None;
        } else {
            let regions = match &target {
                BackendTarget::FileSystem(paths) => match c.kind {
                    Kind::RowContent => fs_vault_regions(paths, &folder_ids, false).await?,
                    Kind::RowCommit => fs_vault_regions(paths, &folder_ids, true).await?,
                    Kind::EventPayload => fs_event_regions(paths, &folder_ids, false).await?,
                    Kind::EventCommit => fs_event_regions(paths, &folder_ids, true).await?,
                    k => return Err(Failure::new("harness/kind", format!("kind {:?} is not a file-system mutation", k))),
                },
                BackendTarget::Database(_, client) => {
                    let (table, idcol, col) = db_place(c.kind);
                    db_regions(client, &folder_ids, table, idcol, col).await?
                }
            };
            let regions: Vec<Region> = regions.into_iter().filter(|r| r.range.end > r.range.start).collect();
            if regions.is_empty() {
                info.class("no-region-to-mutate");
                continue;
            }
            let reg = regions[pick(m.sel, regions.len())].clone();
            let len = (reg.range.end - reg.range.start) as usize;
            let off = reg.range.start + pick(m.byte, len) as u64;
            folder = reg.folder;
            if reg.index > 0 {
                later_row = true;
            }
            match &target {
                BackendTarget::FileSystem(_) => {
                    xor_file_byte(&reg.path, off, mask)?;
                    what = format!("xor {mask:#04x} at byte {} of the {} region ({} bytes) of item #{} in the {} of folder '{}'", off - reg.range.start, c.kind.name(), len, reg.index,
                        if matches!(c.kind, Kind::RowContent | Kind::RowCommit) { "vault file" } else { "event log" }, name_of(&folder));
                }
                BackendTarget::Database(_, client) => {
                    let (table, idcol, col) = db_place(c.kind);
                    let mut data = reg.data.clone();
                    data[off as usize] ^= mask;
                    db_set(client, table, idcol, col, reg.rowid, data).await?;
                    what = format!("xor {mask:#04x} at byte {off} of {table}.{col} ({len} bytes) of row #{} of folder '{}'", reg.index, name_of(&folder));
                }
            }
            undo = Some((reg, off));
        }
        // ---- report
        let after = drain_account(&target, &w.account_id, folders.clone(), conc).await?;
        info.inner_evals += 1;
        // ---- revert
        if let Some((reg, off)) = undo {
            match &target {
                BackendTarget::FileSystem(_) => xor_file_byte(&reg.path, off, mask)?,
                BackendTarget::Database(_, client) => {
                    let (table, idcol, col) = db_place(c.kind);
                    db_set(client, table, idcol, col, reg.rowid, reg.data.clone()).await?;
                }
            }
        }
        // ---- oracle
        ensure!(!after.timed_out, format!("c16/{be}/report-never-completes"), "[{be}] mutation #{mi} ({what}): the report went silent for 30 s without ending");
        let fresh = new_failures_for(&before, &after, &folder);
        if fresh.is_empty() {
            info.nontrivial = rule && later_row;
            let others: Vec<String> = after.failures.iter().filter(|(f, _)| f != &folder).map(|(f, _)| name_of(f)).collect();
            return Err(Failure::new(
                format!("c16/{be}/{}", c.kind.missed()),
                format!(
                    "[{be}] mutation #{mi}: {what}; the integrity report has {} failure event(s) for that folder, all of them identical to the report on the untouched account ({} before){}",
                    after.failures.iter().filter(|(f, _)| f == &folder).count(),
                    before.failures.iter().filter(|(f, _)| f == &folder).count(),
                    if others.is_empty() { String::new() } else { format!("; failures naming other folders: {:?}", others) }
                ),
            ));
        }
        if c.kind.is_removal() {
            break;
        }
    }
    info.nontrivial = rule && later_row;
    info.class(if later_row { "mutation-later-row" } else { "mutation-first-row-only" });
    Ok(())
}

// ---------------------------------------------------------------------------
// External files
// ---------------------------------------------------------------------------

pub fn file_bytes(spec: &FileSpec) -> Vec<u8> {
    let n = 1 + (spec.len as usize % 4096);
    (0..n).map(|i| (i as u8).wrapping_mul(17) ^ spec.seed ^ ((i >> 8) as u8)).collect()
}

/// Create an external file secret in folder `fi` of the model; the model gets
/// the projection of what the account serves right after the creation.
pub async fn create_file_secret(w: &mut AcctWorld, fi: usize, bytes: &[u8]) -> Result<(SecretId, ExternalFile), Failure> {
    let dir = w.temp.path().join("sv-attachments");
    std::fs::create_dir_all(&dir).map_err(hf("harness/attachment", "mkdir"))?;
    let path = dir.join(format!("attachment-{}.txt", w.stats.steps));
    std::fs::write(&path, bytes).map_err(hf("harness/attachment", "write plaintext"))?;
    let fid = w.model.folders[fi].id;
    let secret: Secret = path.clone().try_into().map_err(hf("harness/attachment", "Secret::try_from(PathBuf)"))?;
    let mut meta = SecretMeta::new("attachment".to_string(), secret.kind());
    meta.set_date_created(time::OffsetDateTime::from_unix_timestamp(1_650_000_000).unwrap().into());
    let res = w
        .account
        .create_secret(meta, secret, AccessOptions { folder: Some(fid), ..Default::default() })
        .await
        .map_err(hf("c16/create-file-secret-error", "create_secret(external file)"))?;
    let (row, _) = w.account.read_secret(&res.id, Some(&fid)).await.map_err(hf("c16/read-file-secret-error", "read_secret(external file)"))?;
    let spec = SecretSpec { kind: 1, label: "attachment".into(), tags: vec![], favorite: false, a: String::new(), b: String::new(), big: 0, comment: None, recovery: None, fields: 0, opt: false };
    w.model.folders[fi].secrets.push(MSecret { id: res.id, meta: proj_meta(row.meta()), secret: proj_secret(row.secret()), spec });
    let files = w.account.canonical_files().await.map_err(hf("harness/canonical-files", "canonical_files"))?;
    let file = files
        .iter()
        .find(|f| f.vault_id() == &fid && f.secret_id() == &res.id)
        .cloned()
        .ok_or_else(|| Failure::new("c16/file-not-in-canonical-files", "the external file of a freshly created file secret is not in canonical_files()"))?;
    Ok((res.id, file))
}

pub fn check_file_case(c: &FileCase) -> (CaseInfo, CheckResult) {
    let mut info = CaseInfo::default();
    let r = block_on(async {
        sos_core::verif::set_clock(Some((1_700_000_000i128 * 1_000_000_000, 1_000_003)));
        let res = run_file_case(c, &mut info).await;
        sos_core::verif::set_clock(None);
        res
    });
    (info, r)
}

async fn run_file_case(c: &FileCase, info: &mut CaseInfo) -> CheckResult {
    let mut w = build_world(&c.history, &[]).await?;
    let be = if w.cfg.db { "sqlite" } else { "fs" };
    info.class(w.cfg.label());
    info.class(format!("files/{be}"));
    let fi = pick(c.file.folder, w.model.folders.len());
    let bytes = file_bytes(&c.file);
    let (_, mut file) = create_file_secret(&mut w, fi, &bytes).await?;
    let target = w.target().await.with_account_id(&w.account_id);
    if c.file.boundary > 0 {
        let first = target.paths().into_file_path(&file);
        let stored = std::fs::metadata(&first).map_err(hf("c16/blob-not-on-disc", "stat blob"))?.len() as usize;
        let overhead = stored.saturating_sub(bytes.len());
        let want = (stored / 4096 + c.file.boundary as usize) * 4096;
        let n = want - overhead;
        if n <= 60_000 {
            let mut more = bytes.clone();
            let mut k = 0u8;
            while more.len() < n {
                more.push(c.file.seed.wrapping_mul(31).wrapping_add(k));
                k = k.wrapping_add(7);
            }
            more.truncate(n);
            // distinct content => distinct blob name
            if let Some(b) = more.first_mut() {
                *b ^= 0x5a;
            }
            let (_, f2) = create_file_secret(&mut w, fi, &more).await?;
            let p2 = target.paths().into_file_path(&f2);
            let l2 = std::fs::metadata(&p2).map_err(hf("c16/blob-not-on-disc", "stat blob"))?.len();
            info.class(if l2 % 4096 == 0 { "blob-length-multiple-of-4096" } else { "blob-length-boundary-missed" });
            file = f2;
        }
    }
    let files = w.account.canonical_files().await.map_err(hf("harness/canonical-files", "canonical_files"))?;
    let conc = if c.wide { 4 } else { 1 };
    info.nontrivial = account_rule(&w);

    // the folder report stays clean with an attachment around
    let folders = summaries_in_model_order(&w).await?;
    let acct = drain_account(&target, &w.account_id, folders, conc).await?;
    if !w.cfg.db || acct.timed_out {
        // (sqlite row soundness is the business of sound/sqlite)
        ensure!(!acct.timed_out, format!("c16/{be}/report-never-completes"), "[{be}] folder report went silent");
        if let Some((fid, reason)) = acct.failures.first() {
            let class = classify_unsound(&target, &w.account_id, fid).await;
            return Err(Failure::new(format!("c16/{be}/{class}"), format!("[{be}] untouched account with an attachment: {}", reason.chars().take(300).collect::<String>())));
        }
    }

    let clean = drain_files(&target, files.clone(), conc).await?;
    info.inner_evals += 1;
    ensure!(!clean.timed_out, format!("c16/{be}/file-report-never-completes"), "[{be}] file report on untouched blobs went silent for 30 s");
    if let Some((f, reason)) = clean.failures.first() {
        return Err(Failure::new(format!("c16/{be}/intact-file-reported"), format!("[{be}] file_integrity on untouched blobs reported {f}: {}", reason.chars().take(300).collect::<String>())));
    }
    ensure!(clean.complete, format!("c16/{be}/file-report-without-complete"), "[{be}] file report ended without Complete");

    let blob = target.paths().into_file_path(&file);
    let len = std::fs::metadata(&blob).map_err(hf("c16/blob-not-on-disc", &format!("stat {}", blob.display())))?.len() as usize;
    ensure!(len > 0, "harness/empty-blob", "blob is empty");
    let off = pick(c.flip.byte, len) as u64;
    let mask = if c.flip.mask == 0 { 1 } else { c.flip.mask };
    xor_file_byte(&blob, off, mask)?;
    let after = drain_files(&target, files.clone(), conc).await?;
    info.inner_evals += 1;
    xor_file_byte(&blob, off, mask)?;
    ensure!(!after.timed_out, format!("c16/{be}/file-report-never-completes"), "[{be}] file report after a blob byte change went silent for 30 s");
    ensure!(
        after.failures.iter().any(|(f, _)| f == &file),
        format!("c16/{be}/blob-corruption-missed"),
        "[{be}] xor {mask:#04x} at byte {off} of the {len}-byte blob {file}: file_integrity reported {} failure(s), none naming the file",
        after.failures.len()
    );
    info.class(if off > 0 { "blob-later-byte" } else { "blob-first-byte" });

    std::fs::remove_file(&blob).map_err(hf("harness/remove", "remove blob"))?;
    let after = drain_files(&target, files.clone(), conc).await?;
    info.inner_evals += 1;
    ensure!(!after.timed_out, format!("c16/{be}/file-report-never-completes"), "[{be}] file report after removing a blob went silent for 30 s");
    ensure!(
        after.failures.iter().any(|(f, _)| f == &file),
        format!("c16/{be}/removed-blob-missed"),
        "[{be}] removed blob {file}: file_integrity reported {} failure(s), none naming the file",
        after.failures.len()
    );
    Ok(())
}

// ---------------------------------------------------------------------------
// Strategies, run, replay
// ---------------------------------------------------------------------------

fn mut_strategy() -> impl Strategy<Value = Mutn> {
    (any::<u16>(), any::<u16>(), 1u8..=255).prop_map(|(sel, byte, mask)| Mutn { sel, byte, mask })
}

fn case_strategy(kind: Kind, db: bool, max_ops: usize) -> impl Strategy<Value = Case> {
    let muts = match kind {
        Kind::Sound => 0..=0usize,
        k if k.is_removal() => 1..=1,
        _ => 1..=3,
    };
    // the mutation list comes first so that proptest shrinks it first
    (
        proptest::collection::vec(mut_strategy(), muts),
        history_strategy(Mix::Content, max_ops),
        proptest::collection::vec((any::<u16>(), spec_strategy()), 2..5),
        any::<bool>(),
    )
        .prop_map(move |(muts, mut history, extra, wide)| {
            history.cfg.db = db;
            Case { kind, history, extra, wide, muts }
        })
}

/// Soundness over richer histories: folder-level operations with caller-chosen (fresh, live,
/// deleted) ids, compaction, sign-out / re-open, and rewrites (compaction, password and cipher
/// changes) - the report of the untouched account must still be clean.
fn sound_replay_strategy(db: bool, max_ops: usize) -> impl Strategy<Value = Case> {
    (
        history_strategy(Mix::Replay, max_ops),
        proptest::collection::vec(crate::engine_acct::rewrite_strategy(), 0..3),
        proptest::collection::vec((any::<u16>(), spec_strategy()), 0..3),
        any::<bool>(),
    )
        .prop_map(move |(mut history, rewrites, extra, wide)| {
            history.cfg.db = db;
            history.ops.extend(rewrites);
            Case { kind: Kind::Sound, history, extra, wide, muts: vec![] }
        })
}

fn file_case_strategy(db: bool) -> impl Strategy<Value = FileCase> {
    (history_strategy(Mix::Content, 5), (any::<u16>(), any::<u16>(), any::<u8>(), prop_oneof![2 => Just(0u8), 1 => Just(1u8), 1 => Just(2u8)]), mut_strategy(), any::<bool>()).prop_map(move |(mut history, (folder, len, seed, boundary), flip, wide)| {
        history.cfg.db = db;
        // boundary files are built on top of a small first file
        let len = if boundary > 0 { len % 3000 } else { len };
        FileCase { history, file: FileSpec { folder, len, seed, boundary }, flip, wide }
    })
}

/// real evaluations spent on shrinking one failing sub-check (cases cost ~0.5-1 s)
const SHRINK_BUDGET: u32 = 12;

fn run(shard: &Shard, rep: &mut Report) {
    let t = shard.tier;
    let max_ops = 12;
    let t0 = std::time::Instant::now();
    let dbg = std::env::var("VERIF_TIMING").is_ok();
    for db in [false, true] {
        let be = if db { "sqlite" } else { "fs" };
        drive(shard, rep, &format!("sound/{be}"), shard.share(t.pick(40, 700)), case_strategy(Kind::Sound, db, max_ops), with_shrink_budget(shard, SHRINK_BUDGET, |c| check_case(c)));
        drive(shard, rep, &format!("sound-replay/{be}"), shard.share(t.pick(48, 800)), sound_replay_strategy(db, 16), with_shrink_budget(shard, SHRINK_BUDGET, |c| {
            let (mut info, r) = check_case(c);
            if c.history.ops.iter().any(|o| matches!(o, Op::FolderCreate { .. })) {
                info.class("history-with-folder-level-create");
            }
            (info, r)
        }));
        let kinds: &[Kind] = if db { &DB_KINDS } else { &FS_KINDS };
        for k in kinds {
            drive(shard, rep, &format!("{be}/{}", k.name()), shard.share(t.pick(16, 340)), case_strategy(*k, db, max_ops), with_shrink_budget(shard, SHRINK_BUDGET, |c| check_case(c)));
            if dbg {
                eprintln!("shard {} {be}/{} done at {:.1}s", shard.index, k.name(), t0.elapsed().as_secs_f64());
            }
        }
        drive(shard, rep, &format!("files/{be}"), shard.share(t.pick(16, 160)), file_case_strategy(db), with_shrink_budget(shard, 8, |c| check_file_case(c)));
    }
    crate::prop_merge::run_sync_subcheck(shard, rep, crate::prop_merge::Mode::Integrity);
}

fn replay(_shard: &Shard, sub: &str, case: &Value) -> CheckResult {
    if sub == "sync-sound" {
        return crate::prop_merge::replay_sync_subcheck(case, crate::prop_merge::Mode::Integrity);
    }
    if sub.starts_with("files/") {
        let c: FileCase = from_case(case).map_err(|e| Failure::new("harness", e))?;
        check_file_case(&c).1
    } else {
        let c: Case = from_case(case).map_err(|e| Failure::new("harness", e))?;
        check_case(&c).1
    }
}
