//! C20 — the search index always matches what the folders contain.
use crate::engine_acct::*;
use crate::framework::*;
use crate::secrets::NUM_KINDS;
use serde_json::Value;
use sos_account::Account;
use sos_core::{SecretId, VaultFlags, VaultId};
use sos_search::SearchIndex;
use std::collections::{BTreeMap, BTreeSet};

pub const META: PropertyMeta = PropertyMeta {
    id: "C20",
    level: "exploration",
    rule: "local: proptest-generated histories of account-level operations (create / update / move / delete / archive / unarchive secrets of all kinds with labels and tags from a small vocabulary and favourites; create / rename / delete folders; sign-out/sign-in and fresh instance, after which the index is re-initialised as an application does) on an account whose search index was initialised; after every step the incremental index is compared with a fresh SearchIndex filled by add_folder over the same unlocked folders: equal document maps (folder, secret) -> (label, sorted tags, kind, favourite), exactly one document per live model secret, DocumentCount (per folder, per kind, per tag, favourites) equal after dropping zero entries and equal to a recount from the model, and equal query_map result sets for needles derived from the written labels and tags (whole label, words, 2-5-grams, tags) plus needles of deleted secrets. sync: the same comparison after merges received from a second device (sub-check `sync`). The sync sub-check's offline edits also contain compact_folder, moves between folders, change_folder_password and meta-only updates (favourite flag, tags); the known C04 shapes listed in the C02 rule are excluded by construction and counted. Non-trivial = the history contains a delete / move / archive and a later update or re-initialisation (local), or a merge that touched an indexed folder (sync). Distinct = distinct history.",
    assumptions: &[
        "zero counters left behind by the implementation are legitimate and dropped before comparing",
        "query results are compared as sets of (folder, secret); ranking is not part of the property",
        "folder-level operations (which bypass the account and its index by design) are not part of these histories",
    ],
};

pub fn def() -> PropertyDef {
    PropertyDef {
        meta: META,
        shards: |_| 16,
        run,
        replay,
        timeout_s: |t| t.pick(1800, 5 * 3600),
    }
}

type DocMap = BTreeMap<(VaultId, SecretId), (String, Vec<String>, String, bool)>;

fn doc_map(ix: &SearchIndex) -> Result<DocMap, Failure> {
    let mut m = DocMap::new();
    for d in ix.values() {
        let mut tags: Vec<String> = d.meta().tags().iter().cloned().collect();
        tags.sort();
        let k = (*d.folder_id(), *d.id());
        if m.insert(k, (d.meta().label().to_string(), tags, format!("{:?}", d.meta().kind()), d.meta().favorite())).is_some() {
            return Err(Failure::new("c20/duplicate-document", format!("two documents for secret {} in folder {}", d.id(), d.folder_id())));
        }
    }
    Ok(m)
}

#[derive(Debug, PartialEq, Eq)]
struct Counts {
    vaults: BTreeMap<VaultId, usize>,
    kinds: BTreeMap<u8, usize>,
    tags: BTreeMap<String, usize>,
    favorites: usize,
}

fn counts_of(ix: &SearchIndex) -> Counts {
    let c = ix.statistics().count();
    Counts {
        vaults: c.vaults().iter().filter(|(_, n)| **n > 0).map(|(k, n)| (*k, *n)).collect(),
        kinds: c.kinds().iter().filter(|(_, n)| **n > 0).map(|(k, n)| (*k, *n)).collect(),
        tags: c.tags().iter().filter(|(_, n)| **n > 0).map(|(k, n)| (k.clone(), *n)).collect(),
        favorites: c.favorites(),
    }
}

fn query_set(ix: &SearchIndex, needle: &str) -> BTreeSet<(VaultId, SecretId)> {
    ix.query_map(needle, |_| true).into_iter().map(|d| (*d.folder_id(), *d.id())).collect()
}

fn needles_of(label: &str, tags: &[String]) -> Vec<String> {
    let mut v = vec![];
    if !label.trim().is_empty() {
        v.push(label.to_string());
        for w in label.split(' ').filter(|w| !w.is_empty()) {
            v.push(w.to_string());
        }
        let chars: Vec<char> = label.chars().collect();
        for n in 2..=5usize {
            if chars.len() >= n {
                v.push(chars[..n].iter().collect());
                v.push(chars[chars.len() - n..].iter().collect());
            }
        }
    }
    v.extend(tags.iter().cloned());
    v
}

/// Compare the account's incremental index with a rebuilt one and the model.
pub async fn check_index(w: &AcctWorld, after: &str, needles: &BTreeSet<String>) -> CheckResult {
    let shared = w
        .account
        .search_index()
        .await
        .map_err(hf("c20/search-index-unavailable", "search_index"))?;
    let inc = shared.read().await;
    // rebuilt index over the same unlocked folders
    let mut fresh = SearchIndex::new();
    let archive = w.model.archive_ix().map(|i| w.model.folders[i].id);
    fresh.set_archive_id(archive);
    for f in &w.model.folders {
        let folder = w.account.folder(&f.id).await.map_err(hf("c20/folder-lookup-error", "Account::folder"))?;
        let ap = folder.access_point();
        let ap = ap.lock().await;
        fresh.add_folder(&*ap).await.map_err(hf("c20/rebuild-error", "SearchIndex::add_folder"))?;
    }
    let a = doc_map(&inc)?;
    let b = doc_map(&fresh)?;
    if a != b {
        let only_inc: Vec<_> = a.keys().filter(|k| !b.contains_key(*k)).collect();
        let only_fresh: Vec<_> = b.keys().filter(|k| !a.contains_key(*k)).collect();
        let sig = if !only_inc.is_empty() {
            "c20/stale-document-in-index"
        } else if !only_fresh.is_empty() {
            "c20/live-secret-missing-from-index"
        } else {
            "c20/document-fields-stale"
        };
        let changed: Vec<_> = a.iter().filter(|(k, v)| b.get(*k).map(|x| x != *v).unwrap_or(false)).map(|(k, v)| format!("{:?}: {:?} vs {:?}", k.1, v, b[k])).take(2).collect();
        return Err(Failure::new(
            sig,
            format!("after {after}: incremental index differs from a rebuilt index: only in incremental {:?}, only in rebuilt {:?}, changed {:?}", only_inc, only_fresh, changed),
        ));
    }
    // one document per live model secret
    let model_keys: BTreeSet<(VaultId, SecretId)> = w.model.folders.iter().flat_map(|f| f.secrets.iter().map(move |s| (f.id, s.id))).collect();
    let idx_keys: BTreeSet<(VaultId, SecretId)> = a.keys().cloned().collect();
    if model_keys != idx_keys {
        return Err(Failure::new(
            if idx_keys.len() > model_keys.len() { "c20/stale-document-in-index" } else { "c20/live-secret-missing-from-index" },
            format!("after {after}: index documents {:?} but live secrets {:?}", idx_keys.difference(&model_keys).collect::<Vec<_>>(), model_keys.difference(&idx_keys).collect::<Vec<_>>()),
        ));
    }
    // counters
    let ca = counts_of(&inc);
    let cb = counts_of(&fresh);
    if ca != cb {
        let which = if ca.vaults != cb.vaults { "folders" } else if ca.kinds != cb.kinds { "kinds" } else if ca.tags != cb.tags { "tags" } else { "favorites" };
        return Err(Failure::new(
            format!("c20/counters-differ-from-rebuilt/{which}"),
            format!("after {after}: incremental counters {:?} but rebuilt {:?}", ca, cb),
        ));
    }
    // recount from the model
    let mut want = Counts { vaults: BTreeMap::new(), kinds: BTreeMap::new(), tags: BTreeMap::new(), favorites: 0 };
    for f in &w.model.folders {
        for s in &f.secrets {
            *want.vaults.entry(f.id).or_default() += 1;
            if Some(f.id) != archive {
                let (_, secret) = crate::secrets::build_secret(&s.spec);
                let kind: u8 = (&secret.kind()).into();
                *want.kinds.entry(kind).or_default() += 1;
            }
            for t in s.meta["tags"].as_array().cloned().unwrap_or_default() {
                *want.tags.entry(t.as_str().unwrap_or("").to_string()).or_default() += 1;
            }
            if s.meta["favorite"].as_bool().unwrap_or(false) {
                want.favorites += 1;
            }
        }
    }
    if ca != want {
        let which = if ca.vaults != want.vaults { "folders" } else if ca.kinds != want.kinds { "kinds" } else if ca.tags != want.tags { "tags" } else { "favorites" };
        return Err(Failure::new(
            format!("c20/counters-differ-from-recount/{which}"),
            format!("after {after}: index counters {:?} but a recount of the live secrets gives {:?}", ca, want),
        ));
    }
    // queries
    for n in needles {
        let qa = query_set(&inc, n);
        let qb = query_set(&fresh, n);
        if qa != qb {
            return Err(Failure::new(
                if qa.len() > qb.len() { "c20/query-returns-stale-entry" } else { "c20/query-misses-live-entry" },
                format!("after {after}: query {:?} returns {:?} on the incremental index but {:?} on a rebuilt one", n, qa, qb),
            ));
        }
        if !qa.is_subset(&model_keys) {
            return Err(Failure::new("c20/query-returns-stale-entry", format!("after {after}: query {:?} returns a secret that is not live", n)));
        }
    }
    Ok(())
}

pub fn check_history(h: &History) -> (CaseInfo, CheckResult) {
    let mut info = CaseInfo::default();
    let r = block_on(async {
        sos_core::verif::set_clock(Some((1_700_000_000i128 * 1_000_000_000, 1_000_003)));
        let mut w = AcctWorld::new(&h.cfg).await?;
        w.search = true;
        w.account
            .initialize_search_index()
            .await
            .map_err(hf("c20/initialize-search-index-error", "initialize_search_index"))?;
        let mut needles: BTreeSet<String> = BTreeSet::new();
        let mut removal_seen = false;
        let mut nontrivial = false;
        let mut res = Ok(());
        for (i, op) in h.ops.iter().enumerate() {
            let label = format!("op #{i} {}", crate::prop_c01::op_label(op));
            match op {
                Op::CreateSecret { spec, .. } | Op::UpdateSecret { spec, .. } => {
                    for n in needles_of(&spec.label, &spec.tags) {
                        if needles.len() < 60 {
                            needles.insert(n);
                        }
                    }
                    if removal_seen {
                        nontrivial = true;
                    }
                }
                Op::DeleteSecret { .. } | Op::MoveSecret { .. } | Op::Archive { .. } | Op::Unarchive { .. } | Op::DeleteFolder { .. } => removal_seen = true,
                Op::SignOutIn | Op::Reopen => {
                    if removal_seen {
                        nontrivial = true;
                    }
                }
                _ => {}
            }
            if let Err(f) = w.apply(op).await {
                res = Err(Failure::new(f.signature, format!("{label}: {}", f.message)));
                break;
            }
            if let Err(f) = check_index(&w, &label, &needles).await {
                res = Err(f);
                break;
            }
        }
        let st = &w.stats;
        info.inner_evals = st.steps as u64 * (1 + needles.len() as u64);
        info.nontrivial = nontrivial;
        info.class(h.cfg.label());
        for k in &st.kinds {
            info.class(format!("kind/{}", crate::secrets::KIND_NAMES[(*k % NUM_KINDS) as usize]));
        }
        for c in &st.classes {
            info.class(c.clone());
        }
        sos_core::verif::set_clock(None);
        res
    });
    (info, r)
}

fn run(shard: &Shard, rep: &mut Report) {
    let t = shard.tier;
    drive(shard, rep, "local", shard.share(t.pick(250, 4_000)), history_strategy(Mix::Search, t.pick(30, 80)), |h| check_history(h));
    crate::engine_sync::run_c20_sync(shard, rep);
}

fn replay(shard: &Shard, sub: &str, case: &Value) -> CheckResult {
    match sub {
        "local" => {
            let h: History = from_case(case).map_err(|e| Failure::new("harness", e))?;
            check_history(&h).1
        }
        "sync" => crate::engine_sync::replay_c20_sync(shard, case),
        _ => Err(Failure::new("harness", format!("unknown sub-check {sub}"))),
    }
}

#[allow(dead_code)]
fn _unused(_: VaultFlags) {}
