#!/bin/bash
# Run checks against a scratch copy of /repo with a patch applied, without touching /repo.
# usage: mutant.sh <patch-file|-R:<commit>|none> <ID> [tier] [extra sv args...]
#   -R:<commit>  reverts the given /repo commit in the scratch tree (to re-create a fixed defect)
# The scratch area is /tmp/mut (repo worktree, harness copy, target dir); it is reused between
# calls and can be removed with: mutant.sh clean
set -u
M=/tmp/mut
if [ "${1:-}" = "clean" ]; then
  git -C /repo worktree remove --force $M/repo 2>/dev/null
  rm -rf $M
  exit 0
fi
PATCH="$1"; ID="$2"; TIER="${3:-quick}"
mkdir -p $M
if [ ! -d $M/repo ]; then
  git -C /repo worktree add --detach $M/repo HEAD >/dev/null 2>&1 || exit 2
fi
# sync scratch repo to /repo HEAD + working tree changes
git -C $M/repo checkout -q --detach "$(git -C /repo rev-parse HEAD)" 2>/dev/null
git -C $M/repo checkout -q -- . 2>/dev/null
git -C /repo diff HEAD | git -C $M/repo apply 2>/dev/null
case "$PATCH" in
  none) ;;
  -R:*) git -C $M/repo show "${PATCH#-R:}" | git -C $M/repo apply -R || { echo "cannot revert ${PATCH#-R:}" >&2; exit 2; } ;;
  *) git -C $M/repo apply "$PATCH" || { echo "patch does not apply" >&2; exit 2; } ;;
esac
# harness copy with path deps rewritten
rsync -a --delete --exclude target /verif/harness/ $M/harness/
sed -i "s#/repo/crates#$M/repo/crates#g; s#/repo/tests#$M/repo/tests#g" $M/harness/Cargo.toml
mkdir -p $M/verif
rsync -a --delete /verif/regressions/ $M/verif/regressions/ 2>/dev/null
cp /verif/known_findings.json $M/verif/ 2>/dev/null
export CARGO_TARGET_DIR=$M/target VERIF_DIR=$M/verif CARGO_NET_OFFLINE=true
cd $M/harness || exit 2
if ! cargo build --quiet 2>$M/build.log; then
  tail -30 $M/build.log >&2; echo "MUTANT BUILD FAILED" >&2; exit 3
fi
$M/target/debug/sv check "$ID" "$TIER"
rc=$?
echo "mutant exit=$rc (replays under $M/verif/replays/$ID)"
exit $rc
