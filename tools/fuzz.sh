#!/bin/bash
# Coverage-guided tier (cargo-fuzz / libFuzzer + ASan) for C14 (target `roundtrip`) and
# C15 (target `decode`).  See harness/src/fuzz.rs for the targets and their oracles.
#
# usage: tools/fuzz.sh <C14|C15> <runs> [seed]
#
#   exit 0  campaign finished, no crash
#   exit 1  a crash artifact was converted into replays/<ID>/fuzz_*.json and the replay through
#           the harness (decoder worker process, no libFuzzer) reproduces it:
#           prints `VIOLATION property=<ID> replay=<path>`
#   exit 2  inconclusive: build failure, libFuzzer timeout (-timeout=60) / out-of-memory artifact,
#           a worker that died without artifact, or a crash that the harness replay does not
#           reproduce (sanitizer-only finding; the artifact is kept)
# Always prints `FUZZ property=<ID> target=<t> runs=<n> execs=<n> cov=<n> corpus=<n> crashes=<n> ...`.
#
# The budget is a number of executions, never a duration.  <runs> is split over FUZZ_WORKERS
# (default 8) independent libFuzzer processes, worker i running `-runs=<runs>/W -seed=f(seed,i)`
# on its own copy of the seed corpus (no corpus exchange: -jobs/-fork share or merge corpora at
# wall-clock dependent moments, independent workers keep a run reproducible from the seed as
# far as libFuzzer is).  cov/corpus are those of the union of the workers' corpora.
#
# Environment: FUZZ_WORKERS (8), FUZZ_TARGET_DIR (<verif>/target-fuzz), SV_TARGET_DIR
# (<verif>/target), FUZZ_BUILD_JOBS (cargo default), FUZZ_NO_SEED_CORPUS=1 (start from an empty
# corpus; for measurements), FUZZ_EXTRA_CORPUS=<dir> (additional seed inputs, selector byte(s)
# included), FUZZ_TIMEOUT (60; seconds per input, libFuzzer -timeout), FUZZ_KEEP=1 (keep the run
# directory of a clean run).
set -u
ROOT="$(dirname "$(dirname "$(realpath "$0")")")"
ID="${1:-}"; RUNS="${2:-}"; SEED="${3:-${VERIF_SEED:-1}}"
case "$ID" in
  C14) T=roundtrip ;;
  C15) T=decode ;;
  *) echo "usage: fuzz.sh <C14|C15> <runs> [seed]" >&2; exit 2 ;;
esac
case "$RUNS" in ''|*[!0-9]*) echo "usage: fuzz.sh <C14|C15> <runs> [seed]" >&2; exit 2 ;; esac
case "$SEED" in ''|*[!0-9]*) echo "seed must be a non-negative integer" >&2; exit 2 ;; esac
[ -f /w/out/rust_env.sh ] && ! command -v cargo >/dev/null 2>&1 && . /w/out/rust_env.sh
export VERIF_DIR="${VERIF_DIR:-$ROOT}"
export CARGO_NET_OFFLINE=true
unset CARGO_TARGET_DIR
SVT="${SV_TARGET_DIR:-$ROOT/target}"
FT="${FUZZ_TARGET_DIR:-$ROOT/target-fuzz}"
W="${FUZZ_WORKERS:-8}"
MAX_LEN=4096
TIMEOUT="${FUZZ_TIMEOUT:-60}"
[ -n "${FUZZ_BUILD_JOBS:-}" ] && export CARGO_BUILD_JOBS="$FUZZ_BUILD_JOBS"
mkdir -p "$SVT" "$FT" || exit 2

inconclusive() { echo "INCONCLUSIVE property=$ID $*"; exit 2; }

# ---- build: sv (stable toolchain, harness profile) and the fuzz target (nightly, ASan) ----
# -O: release without debug assertions / overflow checks (production-like, as the harness profile;
# cargo-fuzz enables both by default); --no-cfg-fuzzing: age, tokio and h2 change behaviour
# under cfg(fuzzing).
if ! (cd "$ROOT/harness" && env -u RUSTFLAGS cargo build --quiet --target-dir "$SVT" 2>"$SVT/last-build.log"); then
  tail -40 "$SVT/last-build.log" >&2
  inconclusive "harness build failed"
fi
SV="$SVT/debug/sv"
if ! (cd "$ROOT/fuzz" && RUSTFLAGS="--cfg sos_verif" cargo +nightly fuzz build -O --no-cfg-fuzzing \
      --codegen-units 16 --fuzz-dir "$ROOT/fuzz" --target-dir "$FT" "$T" >"$FT/last-build-$T.log" 2>&1); then
  tail -40 "$FT/last-build-$T.log" >&2
  inconclusive "fuzz target build failed (log: $FT/last-build-$T.log)"
fi
BIN="$FT/x86_64-unknown-linux-gnu/release/$T"
[ -x "$BIN" ] || inconclusive "fuzz binary missing: $BIN"

# ---- seed corpus (regenerated every time from the entry / type lists) ----
RUN="$(mktemp -d "$FT/run-$ID-XXXXXX")" || exit 2
mkdir -p "$RUN/seed/$T"
if [ -z "${FUZZ_NO_SEED_CORPUS:-}" ]; then
  "$SV" fuzz-corpus "$RUN/seed" "$MAX_LEN" >"$RUN/corpus.log" 2>&1 || { cat "$RUN/corpus.log" >&2; inconclusive "seed corpus generation failed"; }
fi
if [ -n "${FUZZ_EXTRA_CORPUS:-}" ]; then
  cp -r "$FUZZ_EXTRA_CORPUS/." "$RUN/seed/$T/" || inconclusive "cannot copy FUZZ_EXTRA_CORPUS"
fi
NSEED=$(find "$RUN/seed/$T" -type f | wc -l)

# ---- campaign ----
[ "$W" -ge 1 ] 2>/dev/null || W=1
[ "$RUNS" -lt $((W * 1000)) ] && W=1
export ASAN_OPTIONS="detect_odr_violation=0:${ASAN_OPTIONS:-}"
PIDS=()
for i in $(seq 0 $((W - 1))); do
  n=$((RUNS / W)); [ "$i" -eq 0 ] && n=$((RUNS / W + RUNS % W))
  s=$(( (SEED * 64 + i) % 4294967291 + 1 ))
  mkdir -p "$RUN/corpus-$i" "$RUN/artifacts-$i" "$RUN/work-$i"
  cp -r "$RUN/seed/$T/." "$RUN/corpus-$i/"
  SV_CODEC_DIR="$RUN/work-$i" "$BIN" "$RUN/corpus-$i" -runs="$n" -seed="$s" -len_control=0 -max_len=$MAX_LEN \
    -timeout="$TIMEOUT" -rss_limit_mb=4096 -malloc_limit_mb=512 -detect_leaks=0 -reload=0 -print_funcs=0 \
    -artifact_prefix="$RUN/artifacts-$i/" -print_final_stats=1 >"$RUN/log-$i.txt" 2>&1 &
  PIDS+=($!)
done
BADEXIT=0
for i in $(seq 0 $((W - 1))); do
  wait "${PIDS[$i]}"; rc=$?
  echo "$rc" >"$RUN/rc-$i"
  [ "$rc" -ne 0 ] && BADEXIT=$((BADEXIT + 1))
done

# ---- statistics ----
EXECS=0
for i in $(seq 0 $((W - 1))); do
  e=$(sed -n 's/^stat::number_of_executed_units: *//p' "$RUN/log-$i.txt" | tail -1)
  EXECS=$((EXECS + ${e:-0}))
done
field() { grep -E '^#[0-9]+[[:space:]]+(DONE|INITED)' "$2" | tail -1 | sed -n "s/.* $1: *\([0-9]*\).*/\1/p"; }
NCRASH=$(find "$RUN"/artifacts-[0-9]* -type f | wc -l)
if [ "$W" -gt 1 ] && [ "$NCRASH" -eq 0 ]; then
  # one load pass over all corpora: coverage and size of their union
  dirs=(); for i in $(seq 0 $((W - 1))); do dirs+=("$RUN/corpus-$i"); done
  mkdir -p "$RUN/work-u" "$RUN/artifacts-u"
  SV_CODEC_DIR="$RUN/work-u" "$BIN" "${dirs[@]}" -runs=0 -max_len=$MAX_LEN -timeout="$TIMEOUT" -rss_limit_mb=4096 \
    -detect_leaks=0 -artifact_prefix="$RUN/artifacts-u/" >"$RUN/log-u.txt" 2>&1
  COV=$(field cov "$RUN/log-u.txt"); FTS=$(field ft "$RUN/log-u.txt"); CORP=$(field corp "$RUN/log-u.txt")
else
  # a worker stopped on an artifact (or W=1): best single worker, from its last status line
  COV=0; FTS=0; CORP=0
  for i in $(seq 0 $((W - 1))); do
    l=$(grep -E '^#[0-9]+[[:space:]]+(DONE|INITED|NEW|REDUCE|pulse|RELOAD)' "$RUN/log-$i.txt" | tail -1)
    c=$(echo "$l" | sed -n 's/.* cov: *\([0-9]*\).*/\1/p'); c=${c:-0}
    if [ "$c" -gt "$COV" ]; then
      COV=$c; FTS=$(echo "$l" | sed -n 's/.* ft: *\([0-9]*\).*/\1/p'); CORP=$(echo "$l" | sed -n 's/.* corp: *\([0-9]*\).*/\1/p')
    fi
  done
fi
CRASHES=$(find "$RUN"/artifacts-[0-9]* -type f -name 'crash-*' | wc -l)
TIMEOUTS=$(find "$RUN"/artifacts-[0-9]* -type f -name 'timeout-*' | wc -l)
OOMS=$(find "$RUN"/artifacts-[0-9]* -type f \( -name 'oom-*' -o -name 'leak-*' \) | wc -l)
FUZZ_LINE="FUZZ property=$ID target=$T runs=$RUNS execs=$EXECS cov=${COV:-0} corpus=${CORP:-0} crashes=$CRASHES ft=${FTS:-0} seed_corpus=$NSEED workers=$W seed=$SEED timeouts=$TIMEOUTS ooms=$OOMS"
echo "$FUZZ_LINE"
# record the campaign in the evidence file the property's check wrote (extra keys under coverage)
if [ -f "$ROOT/evidence/$ID.json" ]; then
  python3 - "$ROOT/evidence/$ID.json" "$FUZZ_LINE" "$T" "$EXECS" "${COV:-0}" "${CORP:-0}" "$CRASHES" "$NSEED" "$W" "$SEED" <<'PY' || true
import json, sys
path, line, target, execs, cov, corp, crashes, nseed, workers, seed = sys.argv[1:11]
e = json.load(open(path))
c = e.setdefault("coverage", {})
c["coverage_guided_campaign"] = {
    "engine": "cargo-fuzz / libFuzzer, ASan, in-process, oracle inside the target (harness/src/fuzz.rs)",
    "target": target, "executions": int(execs), "edge_coverage": int(cov), "corpus_files": int(corp),
    "crash_artifacts": int(crashes), "seed_corpus_files": int(nseed), "workers": int(workers), "seed": int(seed),
}
notes = c.setdefault("notes", [])
notes[:] = [n for n in notes if not str(n).startswith("FUZZ ")] + [line]
json.dump(e, open(path, "w"), indent=1)
PY
fi

# ---- verdict ----
if [ "$CRASHES" -gt 0 ]; then
  CONFIRMED=0
  SEEN=""
  for f in $(find "$RUN"/artifacts-[0-9]* -type f -name 'crash-*' | sort); do
    out=$("$SV" fuzz-artifact "$ID" "$f" "$SEED" 2>&1); rc=$?
    rp=$(echo "$out" | sed -n 's/^replay=\([^ ]*\) signature=.*/\1/p' | head -1)
    sig=$(echo "$out" | sed -n 's/^replay=[^ ]* signature=\(.*\)/\1/p' | head -1)
    if [ "$rc" -eq 0 ] && [ -n "$rp" ]; then
      CONFIRMED=$((CONFIRMED + 1))
      # one replay file per failure signature
      case " $SEEN " in *" $sig "*) rm -f "$rp"; continue ;; esac
      SEEN="$SEEN $sig"
      echo "VIOLATION property=$ID replay=$rp"
      echo "  signature=$sig"
      echo "$out" | sed -n '2p'
    elif [ "$rc" -eq 3 ] && [ -n "$rp" ]; then
      mkdir -p "$ROOT/replays/$ID"; cp "$f" "$ROOT/replays/$ID/unconfirmed-$(basename "$f")"
      echo "UNCONFIRMED property=$ID artifact=$ROOT/replays/$ID/unconfirmed-$(basename "$f") replay=$rp (crash of the instrumented target; the harness replay passes)"
      grep -m1 -E 'FUZZ-VIOLATION|ALLOC-TRIP|ERROR: AddressSanitizer|ERROR: libFuzzer' "$RUN"/log-*.txt | head -3
    else
      echo "cannot convert $f: $out" >&2
    fi
  done
  [ "$CONFIRMED" -gt 0 ] && exit 1
  inconclusive "crash artifacts were not reproduced by the harness replay (run directory kept: $RUN)"
fi
if [ "$TIMEOUTS" -gt 0 ] || [ "$OOMS" -gt 0 ]; then
  inconclusive "libFuzzer stopped on a timeout / out-of-memory artifact: $(find "$RUN"/artifacts-[0-9]* -type f | head -3 | tr '\n' ' ')"
fi
if [ "$BADEXIT" -gt 0 ]; then
  tail -5 "$RUN"/log-*.txt >&2
  inconclusive "$BADEXIT fuzzer process(es) ended abnormally without an artifact (run directory kept: $RUN)"
fi
if [ "$EXECS" -lt "$RUNS" ]; then
  inconclusive "only $EXECS of $RUNS executions were made (run directory kept: $RUN)"
fi
[ -z "${FUZZ_KEEP:-}" ] && rm -rf "$RUN"
exit 0
