#!/bin/bash
# Confirm a seeded change and run the checks against it, all in the scratch tree /tmp/mut
# (never in /repo).
# usage: seeded.sh <name> <property-id> <src-dir-with-patch.diff+demo.diff+notes.md> <demo-test-filter> <demo-crate> [extra check ids...]
#   1. copies patch.diff / demo.diff / notes.md to /verif/seeded/<name>/
#   2. scratch repo = /repo HEAD; applies demo only -> demo must PASS
#   3. applies patch too -> demo must FAIL; workspace test crates must compile
#   4. runs the repository baseline suite on patch-only tree -> must still pass
#   5. runs /verif checks <property-id> (+extra) quick against the patched tree (mutant.sh)
# Results are written to /verif/seeded/<name>/confirm.log and summarised on stdout.
set -u
NAME="$1"; PID="$2"; SRC="$3"; FILTER="$4"; CRATE="$5"; shift 5
EXTRA="$@"
OUT=/verif/seeded/$NAME
mkdir -p $OUT
cp $SRC/patch.diff $OUT/patch.diff
cp $SRC/demo.diff $OUT/demo.diff 2>/dev/null
cp $SRC/notes.md $OUT/notes.md 2>/dev/null
LOG=$OUT/confirm.log
: > $LOG
M=/tmp/mut
[ -f /w/out/rust_env.sh ] && . /w/out/rust_env.sh
export CARGO_NET_OFFLINE=true
if [ ! -d $M/repo ]; then
  mkdir -p $M; git -C /repo worktree add --detach $M/repo HEAD >/dev/null 2>&1
fi
reset_repo() {
  git -C $M/repo checkout -q --detach "$(git -C /repo rev-parse HEAD)" 2>/dev/null
  git -C $M/repo checkout -q -- . 2>/dev/null
  git -C $M/repo clean -fdq -e target 2>/dev/null
  # several existing tests (and demos written like them) use tempdir_in("target") relative to the test crate
  mkdir -p $M/repo/tests/unit/target $M/repo/tests/integration/target
}
run_demo() {
  (cd $M/repo && unset RUSTFLAGS && cargo test -p $CRATE --offline "$FILTER" 2>&1 | tail -15)
}
echo "== demo on unchanged tree" >> $LOG
reset_repo
git -C $M/repo apply $OUT/demo.diff >> $LOG 2>&1 || echo "DEMO DOES NOT APPLY" >> $LOG
run_demo > $M/demo-clean.txt 2>&1; cat $M/demo-clean.txt >> $LOG
if grep -Eq "test result: ok\. [1-9][0-9]* passed" $M/demo-clean.txt && ! grep -q "test result: FAILED" $M/demo-clean.txt; then DEMO_CLEAN=pass; else DEMO_CLEAN=FAIL; fi
echo "== demo with the change" >> $LOG
git -C $M/repo apply $OUT/patch.diff >> $LOG 2>&1 || echo "PATCH DOES NOT APPLY" >> $LOG
run_demo > $M/demo-mut.txt 2>&1; cat $M/demo-mut.txt >> $LOG
if grep -q "test result: FAILED" $M/demo-mut.txt; then DEMO_MUT=fails; else DEMO_MUT=DOES-NOT-FAIL; fi
echo "== baseline suite with the change (patch only)" >> $LOG
reset_repo
git -C $M/repo apply $OUT/patch.diff >> $LOG 2>&1
/verif/baseline.sh $M/repo > $M/baseline.txt 2>&1; BASE_RC=$?; cat $M/baseline.txt >> $LOG
echo "== checks" >> $LOG
RES=""
for id in $PID $EXTRA; do
  /verif/tools/mutant.sh $OUT/patch.diff $id quick > $M/check-$id.txt 2>&1
  rc=$?
  sig=$(grep -A1 "^VIOLATION" $M/check-$id.txt | grep -m1 "signature=" | sed 's/.*signature=\([^ ]*\).*/\1/')
  echo "--- $id exit=$rc $sig" >> $LOG; tail -5 $M/check-$id.txt >> $LOG
  RES="$RES $id:exit=$rc:${sig:-none}"
done
echo "SEEDED $NAME property=$PID demo_on_clean=$DEMO_CLEAN demo_with_change=$DEMO_MUT baseline_rc=$BASE_RC checks=[$RES ]"
echo "SEEDED $NAME property=$PID demo_on_clean=$DEMO_CLEAN demo_with_change=$DEMO_MUT baseline_rc=$BASE_RC checks=[$RES ]" >> $LOG
# meta.json: which property, what it needs to manifest (from $SRC/needs.txt), what was run
python3 - "$NAME" "$PID" "$SRC" "$FILTER" "$CRATE" "$DEMO_CLEAN" "$DEMO_MUT" "$BASE_RC" "$RES" <<'PY'
import json, sys, os
name, pid, src, flt, crate, dclean, dmut, base_rc, res = sys.argv[1:10]
needs = open(os.path.join(src, 'needs.txt')).read().strip() if os.path.exists(os.path.join(src, 'needs.txt')) else ''
checks = []
for tok in res.split():
    cid, ex, sig = tok.split(':', 2)
    checks.append({"check": cid, "exit": int(ex.split('=')[1]), "first_signature": None if sig == 'none' else sig})
meta = {
  "name": name, "property": pid,
  "needs_to_manifest": needs,
  "repo_head": os.popen('git -C /repo rev-parse --short HEAD').read().strip(),
  "ran": [
    f"scratch worktree /tmp/mut/repo at /repo HEAD; git apply demo.diff; cargo test -p {crate} --offline {flt}  -> {dclean}",
    f"git apply patch.diff; same cargo test -> {dmut}",
    f"patch only: /verif/baseline.sh /tmp/mut/repo (the pinned 282-test suite, guard off) -> exit {base_rc}",
  ] + [f"/verif/tools/mutant.sh patch.diff {c['check']} quick -> exit {c['exit']}" + (f" first signature {c['first_signature']}" if c['first_signature'] else "") for c in checks],
  "demo_passes_on_unchanged_tree": dclean == 'pass',
  "demo_fails_with_change": dmut == 'fails',
  "existing_suite_passes_with_change": base_rc == '0',
  "checks": checks,
  "caught_by": [c['check'] for c in checks if c['exit'] == 1],
}
json.dump(meta, open(f'/verif/seeded/{name}/meta.json', 'w'), indent=1)
PY
